/-
Hand-written executable model of `chmpy/fmt/cif.py`: value classification (`parse_value`,
`NUM_ERR_REGEX`, `parse_quote`), the row tokenizer (`VALUES_REGEX`), the serializer
(`Cif.to_string`, `format_field`, `needs_quote`) and the line-driven parser (`Cif.parse`).

Text is a list of code points; a document is a list of lines.  Floats are exact rationals; a scalar
float is printed by Python's `str(float)` (shortest round-tripping decimal), which is not modelled:
a float value carries the text Python printed for it (the harness supplies it) together with its
value, and `float(text)` is modelled as exact decimal reading.  Loop floats use `20.12f`, modelled
exactly (`MolIO.fmtFixed`).  Multi-line `;` text fields are not modelled (the writer never emits them).
Mathlib-free.
-/
import ChmpyVerif.Model.MolIO
namespace ChmpyVerif.Cif
open ChmpyVerif.PyStr ChmpyVerif.SymOp ChmpyVerif.MolIO

inductive Err | valueError | indexError | typeError | unmodelled
deriving DecidableEq, Repr

/-- a parsed value with its Python type -/
inductive Val
  | int (i : Int)
  | float (q : Rat)
  | str (s : List Ch)
  /-- a float that overflowed to ±infinity (`float("1e999")`) -/
  | inf (neg : Bool)
deriving DecidableEq, Repr

/-! ### numbers: `NUM_ERR_REGEX = ([-+]?(\d+([.,]\d*)?|[.,]\d+)([eE][-+]?\d+)?)(\(\d+\))?` -/

def isSepC (c : Ch) : Bool := c = 46 || c = 44     -- '.' or ','

/-- longest prefix matched by the regex, split as (number text, rest); `none` = no match at position 0 -/
def matchNumber (s : List Ch) : Option (List Ch × List Ch) :=
  let (sign, s1) := match s with
    | c :: r => if c = 45 || c = 43 then ([c], r) else ([], s)
    | [] => ([], [])
  let ip := s1.takeWhile isDigitA
  let s2 := s1.dropWhile isDigitA
  -- mantissa
  let mant : Option (List Ch × List Ch) :=
    if !ip.isEmpty then
      match s2 with
      | c :: r => if isSepC c then some (ip ++ c :: r.takeWhile isDigitA, r.dropWhile isDigitA) else some (ip, s2)
      | [] => some (ip, [])
    else
      match s2 with
      | c :: r =>
        let fp := r.takeWhile isDigitA
        if isSepC c && !fp.isEmpty then some (c :: fp, r.dropWhile isDigitA) else none
      | [] => none
  match mant with
  | none => none
  | some (m, s3) =>
    -- optional exponent
    let (ex, s4) := match s3 with
      | e :: r =>
        if e = 101 || e = 69 then
          let (sg, r1) := match r with
            | c :: r' => if c = 45 || c = 43 then ([c], r') else ([], r)
            | [] => ([], [])
          let ds := r1.takeWhile isDigitA
          if ds.isEmpty then ([], s3) else (e :: sg ++ ds, r1.dropWhile isDigitA)
        else ([], s3)
      | [] => ([], [])
    -- optional uncertainty "(digits)"
    let s5 := match s4 with
      | 40 :: r =>
        let ds := r.takeWhile isDigitA
        match r.dropWhile isDigitA with
        | 41 :: r' => if ds.isEmpty then s4 else r'
        | _ => s4
      | _ => s4
    some (sign ++ m ++ ex, s5)

/-- Python `float(text)` / `int(text)` on the number text of the regex; a ',' is a ValueError -/
def readNumber (t : List Ch) : Except Err Val :=
  let (neg, body) := match t with
    | c :: r => if c = 45 then (true, r) else if c = 43 then (false, r) else (false, t)
    | [] => (false, [])
  if isDigitStr body then .ok (.int (if neg then -(digitsToNat body : Int) else digitsToNat body))
  else if body.contains 44 then .error .valueError
  else
    let ip := body.takeWhile isDigitA
    let r1 := body.dropWhile isDigitA
    let (fp, r2) := match r1 with
      | 46 :: r => (r.takeWhile isDigitA, r.dropWhile isDigitA)
      | _ => ([], r1)
    let ex : Int := match r2 with
      | _ :: r =>
        let (eneg, ds) := match r with
          | c :: r' => if c = 45 then (true, r') else if c = 43 then (false, r') else (false, r)
          | [] => (false, [])
        if eneg then -(digitsToNat ds : Int) else digitsToNat ds
      | [] => 0
    let mant : Rat := (digitsToNat ip : Rat) + (digitsToNat fp : Rat) / (10 : Rat) ^ fp.length
    -- IEEE doubles: beyond the largest finite double `float()` returns ±inf, far below the smallest it returns 0.0
    if ex > 400 then (if mant = 0 then .ok (.float 0) else .ok (.inf neg))
    else if ex < -400 then .ok (.float 0)
    else
      let v : Rat := if ex < 0 then mant / (10 : Rat) ^ ex.natAbs else mant * (10 : Rat) ^ ex.natAbs
      if v ≥ (2 : Rat) ^ 1024 - (2 : Rat) ^ 970 then .ok (.inf neg)
      else .ok (.float (if neg then -v else v))

/-- `parse_quote(string, delimiter)`: `re.match(d\s*([^d]*)\s*d, string)` -/
def parseQuote (s : List Ch) (d : Ch) : List Ch :=
  match s with
  | c :: r =>
    if c = d then
      let r1 := r.dropWhile pyIsSpace
      let body := r1.takeWhile (· != d)
      match r1.dropWhile (· != d) with
      | _ :: _ =>
        -- `[^d]*` is greedy but must leave `\s*d`: trailing blanks of the body stay in the group
        body
      | [] => s
    else s
  | [] => s

/-- `parse_value(string)` -/
def parseValue (s : List Ch) : Except Err Val :=
  match matchNumber s with
  | some (t, []) => readNumber t
  | _ =>
    let st := strip s
    match st, st.getLast? with
    | c :: _, some l =>
      if c = l && (c = 39 || c = 59 || c = 34) then .ok (.str (parseQuote s c)) else .ok (.str s)
    | _, _ => .error .indexError

/-! ### the row tokenizer `VALUES_REGEX = ('.*?'|".*?"|;.*?;|\S+)` -/

def tokens (s : List Ch) : List (List Ch) := go s s.length
where
  go (s : List Ch) : Nat → List (List Ch)
  | 0 => []
  | fuel + 1 =>
    match s with
    | [] => []
    | c :: rest =>
      if pyIsSpace c then go rest fuel
      else if c = 39 || c = 34 || c = 59 then
        let body := rest.takeWhile (· != c)
        match rest.dropWhile (· != c) with
        | _ :: after => (c :: body ++ [c]) :: go after fuel
        | [] =>
          let tok := (c :: rest).takeWhile (fun x => !pyIsSpace x)
          tok :: go ((c :: rest).dropWhile (fun x => !pyIsSpace x)) fuel
      else
        let tok := (c :: rest).takeWhile (fun x => !pyIsSpace x)
        tok :: go ((c :: rest).dropWhile (fun x => !pyIsSpace x)) fuel

/-! ### serializer -/

/-- `needs_quote` -/
def needsQuote (s : List Ch) : Bool := s.isEmpty || (s.contains 32 && !(s.contains 34 || s.contains 39))

/-- a value to be written: floats carry the text `str(x)` printed for them (scalar context) -/
inductive WVal
  | int (i : Int)
  | float (q : Rat) (repr : List Ch)
  | str (s : List Ch)
deriving DecidableEq, Repr

def intText (i : Int) : List Ch := (if i < 0 then [45] else []) ++ natStr i.natAbs

/-- `format_field` (loop context) -/
def formatField : WVal → List Ch
  | .int i => fmtInt 0 20 i
  | .float q _ => fmtFixed 0 20 12 q
  | .str s => if needsQuote s then 39 :: s ++ [39] else s

/-- scalar context: `f"{quote}{value}{quote}"` -/
def scalarText : WVal → List Ch
  | .int i => intText i
  | .float _ r => r
  | .str s => if needsQuote s then 39 :: s ++ [39] else s

inductive Item
  | scalar (name : List Ch) (v : WVal)
  | column (name : List Ch) (vs : List WVal)
deriving DecidableEq, Repr

def Item.name : Item → List Ch
  | .scalar n _ => n
  | .column n _ => n

/-- consecutive grouping (`itertools.groupby`) -/
def groupBy {α β} [DecidableEq β] (key : α → β) : List α → List (List α)
  | [] => []
  | x :: xs =>
    match groupBy key xs with
    | (y :: ys) :: gs => if key x = key y then (x :: y :: ys) :: gs else [x] :: (y :: ys) :: gs
    | gs => [x] :: gs

def transposeRows : List (List WVal) → List (List WVal)
  | [] => []
  | cols =>
    let n := (cols.map List.length).foldl min (cols.headD []).length
    (List.range n).map fun i => cols.filterMap (·[i]?)

/-- lines of `Cif.to_string()` for one block -/
def printBlock (name : List Ch) (items : List Item) : List (List Ch) :=
  let scalars := items.filterMap fun | .scalar n v => some (95 :: n ++ 32 :: scalarText v) | _ => none
  let cols := items.filterMap fun | .column n vs => some (n, vs) | _ => none
  let byPrefix := groupBy (fun (p : List Ch × List WVal) => (splitOn 95 p.1).headD []) cols
  let loops := byPrefix.flatMap fun g => groupBy (fun (p : List Ch × List WVal) => p.2.length) g
  let loopLines := loops.flatMap fun g =>
    [[108, 111, 111, 112, 95]] ++ g.map (fun p => 95 :: p.1) ++
      (transposeRows (g.map (·.2))).map fun row => joinWith 32 (row.map formatField)
  ([100, 97, 116, 97, 95] ++ name) :: scalars ++ loopLines

def printDoc (doc : List (List Ch × List Item)) : List (List Ch) :=
  doc.flatMap (fun b => printBlock b.1 b.2) ++ [[35, 69, 78, 68]]

/-! ### parser (line-driven state machine) -/

structure PState where
  lines : List (List Ch)
  idx : Nat
  block : List Ch
  /-- blocks in first-appearance order, items in insertion order (later writes to a key replace the value) -/
  data : List (List Ch × List (List Ch × (Val ⊕ List Val)))
deriving Repr

def firstToken (l : List Ch) : List Ch := (splitWs l).headD []
def startsWith (p s : List Ch) : Bool := p.isPrefixOf s

def setItem (d : List (List Ch × List (List Ch × (Val ⊕ List Val)))) (blk k : List Ch) (v : Val ⊕ List Val) :
    List (List Ch × List (List Ch × (Val ⊕ List Val))) :=
  let upd (items : List (List Ch × (Val ⊕ List Val))) :=
    if items.any (·.1 == k) then items.map fun p => if p.1 == k then (k, v) else p else items ++ [(k, v)]
  if d.any (·.1 == blk) then d.map fun b => if b.1 == blk then (blk, upd b.2) else b
  else d ++ [(blk, upd [])]

/-- `is_data_line` -/
def isDataLine (l : List Ch) : Bool :=
  let s := strip l
  !(s.isEmpty) && !(startsWith [35] s) && !(startsWith [95] s) &&
    !(firstToken l == [35] || firstToken l == [108, 111, 111, 112, 95] || startsWith [100, 97, 116, 97, 95] (firstToken l))

def lineAt (st : PState) (i : Nat) : Except Err (List Ch) :=
  match st.lines[i]? with
  | some l => .ok l
  | none => .error .indexError

/-- index of the first line at or after `i` that is not a comment (`#…`); may run past the end -/
def collectComments (lines : List (List Ch)) (i : Nat) : Nat → Nat
  | 0 => i
  | fuel + 1 => match lines[i]? with
    | some l => if startsWith [35] (strip l) then collectComments lines (i + 1) fuel else i
    | none => i

/-- `parse_data_name` for the forms the writer produces (value on the same line) and the one-line next-line form -/
def parseDataName (st : PState) : Except Err PState := do
  let line ← lineAt st st.idx
  let body := (strip line).drop 1
  let toks := splitWs body
  match toks with
  | [] => .error .indexError
  | [k] =>
    -- value on a following line: comment lines are skipped (running past the end is an IndexError);
    -- multi-line ';' text blocks are not modelled
    let skip := collectComments st.lines (st.idx + 1) st.lines.length
    let next ← lineAt st skip
    if next.contains 59 then .error .unmodelled
    else
      let v ← parseValue next
      match v with
      | .str s => let v2 ← parseValue s
                  .ok { st with idx := skip + 1, data := setItem st.data st.block k (.inl v2) }
      | _ => .error .typeError      -- `NUM_ERR_REGEX.match(number)` on a non-string
  | k :: _ =>
    let v := strip (body.drop k.length)
    let pv ← parseValue v
    .ok { st with idx := st.idx + 1, data := setItem st.data st.block k (.inl pv) }

def collectWhile (p : List Ch → Bool) (lines : List (List Ch)) (i : Nat) : Nat → Nat
  | 0 => i
  | fuel + 1 => match lines[i]? with
    | some l => if p l then collectWhile p lines (i + 1) fuel else i
    | none => i

/-- `parse_loop_block` -/
def parseLoop (st : PState) : Except Err PState := do
  let i0 := st.idx + 1
  let _ ← lineAt st i0
  let i1 := collectWhile (fun l => startsWith [95] (strip l)) st.lines i0 st.lines.length
  if i1 ≥ st.lines.length then .error .indexError      -- the key loop reads one line past the end
  else
    let keys := ((st.lines.drop i0).take (i1 - i0)).map fun l => (strip l).drop 1
    let i2 := collectWhile isDataLine st.lines i1 st.lines.length
    let rows := ((st.lines.drop i1).take (i2 - i1)).map fun l => tokens (strip l)
    let init := keys.foldl (fun d k => setItem d st.block k (.inr [])) st.data
    let addRow (acc : Except Err (List (List Ch × List (List Ch × (Val ⊕ List Val))))) (row : List (List Ch)) :=
      (keys.zip row).foldl (fun acc kv => do
        let d ← acc
        let v ← parseValue kv.2
        let cur := match (d.find? (·.1 == st.block)).bind (fun b => b.2.find? (·.1 == kv.1)) with
          | some (_, .inr l) => l
          | _ => []
        .ok (setItem d st.block kv.1 (.inr (cur ++ [v])))) acc
    let data ← rows.foldl addRow (.ok init)
    .ok { st with idx := i2, data := data }

/-- one iteration of the `while` loop of `Cif.parse` -/
def stepParse (st : PState) : Except Err PState := do
  let line ← lineAt st st.idx
  let s := strip line
  if s.isEmpty then .ok { st with idx := st.idx + 1 }
  else
    let tok := firstToken s
    if tok == [35] then .ok { st with idx := st.idx + 1 }
    else if tok == [108, 111, 111, 112, 95] then parseLoop st
    else if startsWith [95] tok then parseDataName st
    else if startsWith [100, 97, 116, 97, 95] tok then
      -- the block is registered even if it turns out to hold no items
      let name := strip (line.drop 5)
      .ok { st with idx := st.idx + 1, block := name,
                    data := if st.data.any (·.1 == name) then st.data else st.data ++ [(name, [])] }
    else .ok { st with idx := st.idx + 1 }

def runParse : Nat → PState → Except Err PState
  | 0, st => .ok st
  | fuel + 1, st => if st.idx < st.lines.length then (stepParse st).bind (runParse fuel) else .ok st

/-- `Cif.from_string(text).data` on the lines of the text -/
def parseDoc (lines : List (List Ch)) : Except Err (List (List Ch × List (List Ch × (Val ⊕ List Val)))) :=
  (runParse (lines.length + 1) ⟨lines, 0, [117, 110, 107, 110, 111, 119, 110], []⟩).map (·.data)

end ChmpyVerif.Cif
