/-
Hand-written executable model of `chmpy/sampling/_sobol.pyx` on natural numbers with explicit
reduction modulo 2^32 (C `unsigned int`), and of the front end `chmpy/sampling/__init__.py`.
The direction-number table is GENERATED (`Gen/Sobol*.lean`).

The two branches `if (L <= s)` / `else` of the source fill `V[1..L]` by the same rule
(`m_i << (32-i)` for i ≤ s, the recurrence above s), so `V` for a larger `L` extends `V` for a
smaller one; the model builds `V` incrementally (`buildV`).  `L = ceil(log(N)/log 2)` is computed in
floating point by the source; the model uses the exact value (assumed equal: trusted base).
Mathlib-free.
-/
namespace ChmpyVerif.Sobol

def W : Nat := 4294967296   -- 2^32

/-- number of trailing one bits -/
def trailingOnes : Nat → Nat → Nat
  | 0, _ => 0
  | fuel + 1, n => if n % 2 = 1 then 1 + trailingOnes fuel (n / 2) else 0

/-- `C[i]`: 1 + number of trailing ones of i -/
def cIdx (i : Nat) : Nat := 1 + trailingOnes 64 i

/-- exact `ceil(log2 N)` for N ≥ 1 -/
def ceilLog2 (n : Nat) : Nat := if n ≤ 1 then 0 else Nat.log2 (n - 1) + 1

/-- `s`: number of leading non-zero direction numbers m[1..] (the scan of the source stops at the first zero) -/
def degree (m : List Nat) : Nat := ((m.drop 1).takeWhile (· != 0)).length

/-- entry `V[i]` given the entries `V[0..i-1]` already built (index 0 unused) -/
def vEntry (m : List Nat) (V : List Nat) (i : Nat) : Nat :=
  let a := m.getD 0 0
  let s := degree m
  if i ≤ s then (m.getD i 0 <<< (32 - i)) % W
  else
    let base := V.getD (i - s) 0
    let init := Nat.xor base (base >>> s)
    (List.range (s - 1)).foldl (fun acc k0 =>
      let k := k0 + 1
      Nat.xor acc ((((a >>> (s - 1 - k)) % 2) * V.getD (i - k) 0) % W)) init

/-- direction numbers `V[0..L]` for a table row (coordinate ≥ 1) -/
def buildV (m : List Nat) : Nat → List Nat
  | 0 => [0]
  | L + 1 => let V := buildV m L; V ++ [vEntry m V (L + 1)]

/-- direction numbers of coordinate 0: all m's = 1 -/
def buildV0 : Nat → List Nat
  | 0 => [0]
  | L + 1 => buildV0 L ++ [(1 <<< (32 - (L + 1))) % W]

/-- `X[n]` (the point with seed n+1): `X[0] = 0`, `X[i] = X[i-1] ^ V[C[i-1]]` -/
def xSeq (V : List Nat) : Nat → Nat
  | 0 => 0
  | n + 1 => Nat.xor (xSeq V n) (V.getD (cIdx n) 0)

/-- coordinate `j` of the point with seed `N ≥ 1`, as an integer numerator over 2^32, with `V` built to length `L` -/
def coord (table : List (List Nat)) (L : Nat) (N j : Nat) : Nat :=
  let V := if j = 0 then buildV0 L else buildV (table.getD (j + 1) []) L
  xSeq V (N - 1)

/-- `quasirandom_sobol(N, D)` -/
def sobol (table : List (List Nat)) (N D : Nat) : List Nat :=
  (List.range D).map fun j => coord table (ceilLog2 N) N j

/-- `quasirandom_sobol_batch(start, end, D)`: one `V` of length `L(end)` serves every seed -/
def sobolBatch (table : List (List Nat)) (start stop D : Nat) : List (List Nat) :=
  (List.range (stop + 1 - start)).map fun k =>
    (List.range D).map fun j => coord table (ceilLog2 stop) (start + k) j

/-- the Joe–Kuo premise for a row: m_i odd and < 2^i for 1 ≤ i ≤ s (rows of zeros are vacuous) -/
def rowOk (m : List Nat) : Bool :=
  (List.range (degree m)).all fun i0 =>
    let i := i0 + 1
    m.getD i 0 % 2 == 1 && decide (m.getD i 0 < 2 ^ i)

/-- direction number `V[i]` has its lowest set bit exactly at position `32 - i` -/
def lowbitOk (V : List Nat) (i : Nat) : Bool :=
  V.getD i 0 % 2 ^ (32 - i) == 0 && (V.getD i 0 / 2 ^ (32 - i)) % 2 == 1

/-- triangularity of the first `M` direction numbers of a row -/
def rowTriangular (m : List Nat) (M : Nat) : Bool :=
  degree m == 0 || (List.range M).all fun i0 => lowbitOk (buildV m M) (i0 + 1)

/-- Korobov point, structure only: `(1/2 + a_i (N+1)) mod 1` with the irrational multipliers abstracted -/
def kgf (a : Nat → Rat) (N D : Nat) : List Rat :=
  (List.range D).map fun i => let v := 1 / 2 + a i * ((N : Rat) + 1); v - (v.floor : Rat)
def kgfBatch (a : Nat → Rat) (lo hi D : Nat) : List (List Rat) :=
  (List.range (hi + 1 - lo)).map fun k => kgf a (lo + k) D

/-- `quasirandom(d1, d2, method, seed)` front end: which generator is called with which arguments -/
inductive Call
  | single (seed dim : Nat)
  | batch (start stop dim : Nat)
deriving DecidableEq, Repr

def frontEnd (d1 : Nat) (d2 : Option Nat) (seed : Nat) : Call :=
  match d2 with
  | none => .single seed d1
  | some d => .batch seed (seed + d1 - 1) d

end ChmpyVerif.Sobol
