/-
Hand-written executable model of the fixed-column text layer of `chmpy/fmt/sdf.py`, of
`chmpy/fmt/xyz_file.py` and of the number formatting they rely on (`format(x, "10.4f")`,
`format(n, "3d")`, `float(str)`, `int(str)`).  The field tables and format specs themselves are
GENERATED (`Gen/MolIO.lean`).  Floats are exact rationals; `format(x, ".pf")` is modelled as
correct rounding (ties to even) of the exact value, which is what CPython does.
Mathlib-free.
-/
import ChmpyVerif.Model.SymOp
namespace ChmpyVerif.MolIO
open ChmpyVerif.PyStr ChmpyVerif.SymOp

/-- one entry of `_ATOM_FIELDS` / `_BOND_FIELDS` / `_COUNTS_FIELDS`; width 0 = "rest of the line" -/
structure RField where
  name : List Nat
  parsed : Bool
  width : Nat
deriving DecidableEq, Repr

/-- one piece of a writer f-string -/
inductive WItem
  | lit (s : List Nat)
  | field (name : List Nat) (spaceFlag width prec : Nat) (ty : List Nat)
deriving DecidableEq, Repr

/-- reader columns `(name, start, width)`, cumulative as in the `n += length` loops -/
def readerLayout : List RField → Nat → List (List Nat × Nat × Nat × Bool)
  | [], _ => []
  | f :: fs, n => (f.name, n, f.width, f.parsed) :: readerLayout fs (n + f.width)

/-- writer columns `(name, start, nominal width)`; literals only advance the column -/
def writerLayout : List WItem → Nat → List (List Nat × Nat × Nat)
  | [], _ => []
  | .lit s :: is, n => writerLayout is (n + s.length)
  | .field nm _ w _ _ :: is, n => (nm, n, w) :: writerLayout is (n + w)

/-- blanks-only literal text between column `a` and the writer's start of field `nm` (for "rest of line" fields) -/
def writerStart (items : List WItem) (nm : List Nat) : Option Nat :=
  ((writerLayout items 0).find? (·.1 == nm)).map (·.2.1)

/-- every PARSED fixed-width reader field is written at the same columns with the same width; a
rest-of-line field is written at or after its reader column -/
def layoutsAgree (r : List RField) (w : List WItem) : Bool :=
  (readerLayout r 0).all fun (nm, start, width, parsed) =>
    !parsed ||
      (if width = 0 then
        match writerStart w nm with
        | some s => decide (start ≤ s)
        | none => false
      else (writerLayout w 0).contains (nm, start, width))

/-! ### numbers as text -/

def padLeft (w : Nat) (s : List Ch) : List Ch := List.replicate (w - s.length) 32 ++ s
def padRight (w : Nat) (s : List Ch) : List Ch := s ++ List.replicate (w - s.length) 32
def zeroPad (p : Nat) (s : List Ch) : List Ch := List.replicate (p - s.length) 48 ++ s

/-- the digits of `format(x, ".pf")`, sign separate: `(negative?, integer part, fraction digits)` -/
def fixedParts (p : Nat) (x : Rat) : Bool × Nat × Nat :=
  let k := roundHalfEven (x * (10 : Rat) ^ p)
  (decide (x < 0), k.natAbs / 10 ^ p, k.natAbs % 10 ^ p)

/-- `format(x, "{flag}{w}.{p}f")`; `flag = 1` is the space flag (a blank where the sign would be) -/
def fmtFixed (flag w p : Nat) (x : Rat) : List Ch :=
  let parts := fixedParts p x
  let sign : List Ch := if parts.1 then [45] else if flag = 1 then [32] else []
  let body := natStr parts.2.1 ++ (if p = 0 then [] else 46 :: zeroPad p (natStr parts.2.2))
  padLeft w (sign ++ body)

/-- `format(n, "{flag}{w}d")` -/
def fmtInt (flag w : Nat) (n : Int) : List Ch :=
  let sign : List Ch := if n < 0 then [45] else if flag = 1 then [32] else []
  padLeft w (sign ++ natStr n.natAbs)

/-- `format(s, "{w}s")`: strings are left-aligned -/
def fmtStr (w : Nat) (s : List Ch) : List Ch := padRight w s

/-- `float(text)` for plain decimal text with optional surrounding blanks -/
def parseFloat (s : List Ch) : Option Rat := parseDecimal (strip s)

/-- `int(text)` -/
def parseInt (s : List Ch) : Option Int :=
  let t := strip s
  let (neg, body) := match t with
    | c :: rest => if c = 45 then (true, rest) else if c = 43 then (false, rest) else (false, t)
    | [] => (false, [])
  if isDigitStr body then some (if neg then -(digitsToNat body : Int) else (digitsToNat body : Int)) else none

/-! ### generic fixed-column rendering and slicing -/

inductive Val
  | num (q : Rat)
  | int (i : Int)
  | str (s : List Ch)
deriving Repr

def renderItem (env : List Nat → Val) : WItem → List Ch
  | .lit s => s
  | .field nm flag w p ty =>
    match env nm with
    | .num q => fmtFixed flag w p q
    | .int i => if ty = [102] then fmtFixed flag w p (i : Rat) else fmtInt flag w i
    | .str s => fmtStr w s

def renderLine (items : List WItem) (env : List Nat → Val) : List Ch := items.flatMap (renderItem env)

/-- the slices `line[n : n + length]` of the reader loops, for parsed fields -/
def sliceFields : List RField → List Ch → List (List Nat × List Ch)
  | [], _ => []
  | f :: fs, line =>
    if f.width = 0 then (if f.parsed then [(f.name, line)] else [])
    else
      let rest := sliceFields fs (line.drop f.width)
      if f.parsed then (f.name, line.take f.width) :: rest else rest

def lookup (l : List (List Nat × List Ch)) (nm : List Nat) : List Ch :=
  match l.find? (·.1 == nm) with
  | some p => p.2
  | none => []

/-- whitespace tokens of `str.split()` -/
def splitWs (s : List Ch) : List (List Ch) :=
  go s [] []
where
  go : List Ch → List Ch → List (List Ch) → List (List Ch)
  | [], cur, acc => (if cur.isEmpty then acc else acc ++ [cur])
  | c :: cs, cur, acc =>
    if pyIsSpace c then go cs [] (if cur.isEmpty then acc else acc ++ [cur]) else go cs (cur ++ [c]) acc

end ChmpyVerif.MolIO
