/-
Hand-written executable model of the root finder `brents_pro` / `brents_stock`
(interpolate/_density.pyx:157-294; a port of scipy's `brentq`) and of the drivers `sphere_*_radii`.
ONE definition, generic in the number type: instantiated with `Rat` in the theorems (Props/C09) and with `Float`
in the driver (the real code computes in float32).  `f` is the 1-D function `t ↦ value(origin + t·direction) - isovalue`.
Mathlib-free.
-/
namespace ChmpyVerif.Brent

section
variable {K : Type} [Add K] [Sub K] [Mul K] [Div K] [Neg K] [LT K] [DecidableLT K] [BEq K] [OfNat K 0] [OfNat K 2] [OfNat K 3]

def absK (x : K) : K := if x < 0 then -x else x
def minK (x y : K) : K := if x < y then x else y

structure St (K : Type) where
  xpre : K
  xcur : K
  xblk : K
  fpre : K
  fcur : K
  fblk : K
  spre : K
  scur : K

inductive Status | noBracket | converged | exhausted
deriving DecidableEq, Repr

structure Out (K : Type) where
  x : K            -- the returned value (`-1` when there is no sign change between the bounds)
  partner : K      -- the other end of the final bracket
  status : Status

/-- lines `if (fpre*fcur) < 0: xblk = xpre …` -/
def rebracket (s : St K) : St K :=
  if s.fpre * s.fcur < 0 then { s with xblk := s.xpre, fblk := s.fpre, scur := s.xcur - s.xpre, spre := s.xcur - s.xpre } else s

/-- lines `if fabs(fblk) < fabs(fcur): …` (cur ↔ blk, pre := old cur) -/
def swapBest (s : St K) : St K :=
  if absK s.fblk < absK s.fcur then
    { s with xpre := s.xcur, xcur := s.xblk, xblk := s.xcur, fpre := s.fcur, fcur := s.fblk, fblk := s.fcur }
  else s

/-- the trial step: secant / inverse quadratic interpolation, or `none` when the code falls back to bisection
(a zero denominator gives inf/nan in C, for which the acceptance test is false) -/
def trial (s : St K) (delta sbis : K) : Option K :=
  if delta < absK s.spre ∧ absK s.fcur < absK s.fpre then
    let stry? : Option K :=
      if s.xpre == s.xblk then
        (if s.fcur - s.fpre == 0 then none else some (-s.fcur * (s.xcur - s.xpre) / (s.fcur - s.fpre)))
      else
        let dpre := (s.fpre - s.fcur) / (s.xpre - s.xcur)
        let dblk := (s.fblk - s.fcur) / (s.xblk - s.xcur)
        let den := dblk * dpre * (s.fblk - s.fpre)
        if den == 0 then none else some (-s.fcur * (s.fblk * dblk - s.fpre * dpre) / den)
    match stry? with
    | some stry => if 2 * absK stry < minK (absK s.spre) (3 * absK sbis - delta) then some stry else none
    | none => none
  else none

/-- one pass of the loop body: `inl` = return, `inr` = next state -/
def body (f : K → K) (xtol tol : K) (s : St K) : Sum (Out K) (St K) :=
  let s := swapBest (rebracket s)
  let delta := (xtol + tol * absK s.xcur) / 2
  let sbis := (s.xblk - s.xcur) / 2
  if s.fcur == 0 ∨ absK sbis < delta then .inl ⟨s.xcur, s.xblk, .converged⟩
  else
    let (spre, scur) := match trial s delta sbis with
      | some stry => (s.scur, stry)
      | none => (sbis, sbis)
    let xcur := if delta < absK scur then s.xcur + scur else s.xcur + (if 0 < sbis then delta else -delta)
    .inr { xpre := s.xcur, fpre := s.fcur, xcur := xcur, fcur := f xcur, xblk := s.xblk, fblk := s.fblk, spre := spre, scur := scur }

def iterate (f : K → K) (xtol tol : K) : Nat → St K → Out K
  | 0, s => ⟨s.xcur, s.xblk, .exhausted⟩
  | n + 1, s =>
    match body f xtol tol s with
    | .inl o => o
    | .inr s' => iterate f xtol tol n s'

/-- `brents_*`: `-1` when `f` has the same strict sign at both bounds -/
def brent (f : K → K) (lower upper xtol tol : K) (maxIter : Nat) (minusOne : K) : Out K :=
  let fpre := f lower
  let fcur := f upper
  if 0 < fpre * fcur then ⟨minusOne, minusOne, .noBracket⟩
  else if fpre == 0 then ⟨lower, lower, .converged⟩
  else if fcur == 0 then ⟨upper, upper, .converged⟩
  else iterate f xtol tol maxIter
    { xpre := lower, xcur := upper, xblk := 0, fpre := fpre, fcur := fcur, fblk := 0, spre := 0, scur := 0 }

end
end ChmpyVerif.Brent
