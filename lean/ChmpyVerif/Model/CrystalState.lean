/-
Hand-written model of the memoisation discipline of `chmpy.crystal.Crystal`:
a crystal is its base state (cell, space group, asymmetric unit — abstracted to a version number)
plus one optional cached value per memo slot; a cached value is identified with the version it was
derived from (`derive base slot` is an uninterpreted function of the base, so "equal to the fresh
answer" ⇔ "derived from the current version").  Which slots exist, which slots each method fills and
which slots each mutator deletes is GENERATED from crystal.py (`Gen/CrystalCaches.lean`).
Mathlib-free.
-/
namespace ChmpyVerif.CState

structure Tables where
  nSlots : Nat
  /-- for each mutator, the slots it deletes -/
  clears : List (List Nat)
deriving Repr

structure Crystal where
  base : Nat
  cache : List (Option Nat)     -- per slot: the version the cached value was derived from
deriving DecidableEq, Repr

abbrev World := List Crystal

inductive Op
  /-- call a method on crystal `c` that fills the given memo slots (if empty) and answers from the LAST
  one (or straight from the base when it fills none) -/
  | query (c : Nat) (fills : List Nat)
  /-- call mutator `m` on crystal `c`: it may first use some memoised methods, then installs a new base
  version and deletes the slots the table lists for it -/
  | mutate (c : Nat) (m : Nat) (fills : List Nat) (newBase : Nat)
  /-- `copy.deepcopy(c)`: a new crystal with the same base AND the same caches -/
  | copy (c : Nat)
deriving Repr

def fillSlot (cr : Crystal) (s : Nat) : Crystal :=
  match cr.cache[s]? with
  | some none => { cr with cache := cr.cache.set s (some cr.base) }
  | _ => cr

def fillAll (cr : Crystal) (fills : List Nat) : Crystal := fills.foldl fillSlot cr

/-- the version the answer of a query is derived from -/
def answerOf (cr : Crystal) (fills : List Nat) : Nat :=
  match fills.getLast? with
  | some s => match (fillAll cr fills).cache[s]? with
    | some (some v) => v
    | _ => cr.base
  | none => cr.base

def clearSlots (cache : List (Option Nat)) (cl : List Nat) : List (Option Nat) :=
  cl.foldl (fun c s => c.set s none) cache

/-- one operation: new world and, for queries, `(version the answer was derived from, current version)` -/
def step (T : Tables) (w : World) : Op → World × Option (Nat × Nat)
  | .query c fills =>
    match w[c]? with
    | some cr => (w.set c (fillAll cr fills), some (answerOf cr fills, cr.base))
    | none => (w, none)
  | .mutate c m fills newBase =>
    match w[c]?, T.clears[m]? with
    | some cr, some cl =>
      let cr1 := fillAll cr fills
      (w.set c { base := newBase, cache := clearSlots cr1.cache cl }, none)
    | _, _ => (w, none)
  | .copy c =>
    match w[c]? with
    | some cr => (w ++ [cr], none)
    | none => (w, none)

def run (T : Tables) : World → List Op → World × List (Option (Nat × Nat))
  | w, [] => (w, [])
  | w, op :: ops =>
    let (w1, a) := step T w op
    let (w2, as) := run T w1 ops
    (w2, a :: as)

/-- a freshly constructed crystal: nothing cached -/
def fresh (T : Tables) (base : Nat) : Crystal := ⟨base, List.replicate T.nSlots none⟩

/-- every mutator deletes every slot -/
def clearsAll (T : Tables) : Bool :=
  T.clears.all fun cl => (List.range T.nSlots).all fun s => cl.contains s

end ChmpyVerif.CState
