/-
Model of the per-cell logic of the Lewiner marching cubes in `mc/_mc_lewiner.pyx`, on top of the GENERATED
leaf list `Gen/MCTables.lean` (every path through `the_big_switch` for every corner-sign configuration).
Hand-written here: cube geometry (corner numbering of `set_cube`, faces of `test_face`), directed edges and
boundary of a triangle patch, the face tests `test_face` / `test_internal` and the vertex interpolation of
`_add_face_from_edge_index` (generic in the number type: ℚ in theorems, Float in the driver), and the
vertex-sharing slot of `get_index_in_facelayer`.
Mathlib-free.
-/
import ChmpyVerif.Gen.MCTables
namespace ChmpyVerif.MC
open ChmpyVerif.Gen.MC

/-- corner number v0..v7 of a relative position (dx, dy, dz), as in `set_cube` -/
def cornerOf : Nat × Nat × Nat → Nat
  | (0, 0, 0) => 0 | (1, 0, 0) => 1 | (1, 1, 0) => 2 | (0, 1, 0) => 3
  | (0, 0, 1) => 4 | (1, 0, 1) => 5 | (1, 1, 1) => 6 | (0, 1, 1) => 7
  | _ => 8

/-- the two corners joined by cube edge `e` (from the generated EDGETORELATIVEPOS tables) -/
def edgeEnds (e : Nat) : Nat × Nat :=
  match edgeRel[e]? with
  | some (a, b) => (cornerOf a, cornerOf b)
  | none => (8, 8)

/-- corners A, B, C, D of a face as listed in `test_face` -/
def faceCorners : Nat → List Nat
  | 1 => [0, 4, 5, 1] | 2 => [1, 5, 6, 2] | 3 => [2, 6, 7, 3]
  | 4 => [3, 7, 4, 0] | 5 => [0, 3, 2, 1] | 6 => [4, 7, 6, 5]
  | _ => []

def faces : List Nat := [1, 2, 3, 4, 5, 6]

/-- corner `c` is positive (value > isovalue) in configuration index `cfg` -/
def signOf (cfg c : Nat) : Bool := (cfg / 2 ^ c) % 2 == 1

def edgeOnFace (f e : Nat) : Bool :=
  let (a, b) := edgeEnds e
  (faceCorners f).contains a && (faceCorners f).contains b

def toNats (l : List Int) : List Nat := l.map Int.toNat

/-- directed edges of the triangles `(x, y, z) ↦ (x,y), (y,z), (z,x)` -/
def dirEdges : List Nat → List (Nat × Nat)
  | x :: y :: z :: rest => (x, y) :: (y, z) :: (z, x) :: dirEdges rest
  | _ => []

/-- directed edges whose reverse is not in the patch -/
def boundary (tris : List Nat) : List (Nat × Nat) :=
  let d := dirEdges tris
  d.filter fun e => !d.contains (e.2, e.1)

/-- boundary segments lying in face `f` -/
def faceSegs (tris : List Nat) (f : Nat) : List (Nat × Nat) :=
  (boundary tris).filter fun e => decide (e.1 < 12) && decide (e.2 < 12) && edgeOnFace f e.1 && edgeOnFace f e.2

/-- what the recorded `test_face` outcomes say about the sign of `q = A·(A·C − B·D)` on face `f`:
`test_face(face)` is `face·q ≥ 0` -/
def qOf (tests : List (Bool × Int × Bool)) (f : Nat) : Option Bool :=
  (tests.reverse.find? fun t => t.1 && t.2.1.natAbs == f).map fun t => if t.2.1 > 0 then t.2.2 else !t.2.2

def faceSigns (cfg f : Nat) : List Bool := (faceCorners f).map (signOf cfg)

def ambiguous (s : List Bool) : Bool := s == [true, false, true, false] || s == [false, true, false, true]

def bits (s : List Bool) : Nat := s.foldl (fun n b => 2 * n + (if b then 1 else 0)) 0

/-- face-local data that both cells sharing a face see: face number, the four corner signs and, for an ambiguous
face, the sign of `q`; coded as a number -/
def keyCode (lf : Leaf) (f : Nat) : Nat :=
  let s := faceSigns lf.cfg f
  let q : Nat := if ambiguous s then (match qOf lf.tests f with | some true => 1 | some false => 2 | none => 3) else 0
  (f * 16 + bits s) * 4 + q

def insertNat (x : Nat) : List Nat → List Nat
  | [] => [x]
  | y :: ys => if x ≤ y then x :: y :: ys else y :: insertNat x ys

/-- canonical code of a set of directed segments -/
def segsCode (segs : List (Nat × Nat)) : List Nat := (segs.map fun e => e.1 * 16 + e.2).foldr insertNat []

/-! ### per-leaf checks -/

def leafWellFormed (lf : Leaf) : Bool :=
  lf.tris.all (fun x => decide (0 ≤ x) && decide (x ≤ 12)) && lf.tris.length % 3 == 0

/-- every cube edge used joins a positive and a non-positive corner -/
def leafStraddles (lf : Leaf) : Bool :=
  (toNats lf.tris).all fun e => e == 12 || (signOf lf.cfg (edgeEnds e).1 != signOf lf.cfg (edgeEnds e).2)

/-- no directed edge twice; every unpaired directed edge lies in exactly one cube face -/
def leafLocallyManifold (lf : Leaf) : Bool :=
  let t := toNats lf.tris
  let d := dirEdges t
  d.all (fun e => d.count e == 1 && e.1 != e.2) &&
    (boundary t).all fun e => (faces.filter fun f => decide (e.1 < 12) && decide (e.2 < 12) && edgeOnFace f e.1 && edgeOnFace f e.2).length == 1

/-- every ambiguous face of the configuration has been resolved by a `test_face` call on the way to this leaf -/
def leafAmbiguousTested (lf : Leaf) : Bool :=
  faces.all fun f => !ambiguous (faceSigns lf.cfg f) || (qOf lf.tests f).isSome

def leafOk (lf : Leaf) : Bool :=
  lf.impossible || (leafWellFormed lf && leafStraddles lf && leafLocallyManifold lf && leafAmbiguousTested lf)

def facePairs (lf : Leaf) : List (Nat × List Nat) :=
  if lf.impossible then [] else faces.map fun f => (keyCode lf f, segsCode (faceSegs (toNats lf.tris) f))

/-- on every face, the leaf leaves exactly the segments the table prescribes for that face's local data -/
def leafFacesMatch (lf : Leaf) : Bool :=
  lf.impossible || faces.all fun f =>
    (expectedLit.find? (·.1 == keyCode lf f)).map (·.2) == some (segsCode (faceSegs (toNats lf.tris) f))

/-- association list key ↦ segments, failing on a conflict -/
def buildExpected : List (Nat × List Nat) → List (Nat × List Nat) → Option (List (Nat × List Nat))
  | [], acc => some acc
  | (k, s) :: rest, acc =>
    match acc.find? (·.1 == k) with
    | some (_, s') => if s == s' then buildExpected rest acc else none
    | none => buildExpected rest (acc ++ [(k, s)])

/-- neighbouring cells: (face of this cell, face of the neighbour, edge renaming this ↦ neighbour) -/
def opposite : List (Nat × Nat × List (Nat × Nat)) :=
  [(3, 1, [(2, 0), (6, 4), (10, 9), (11, 8)]), (2, 4, [(1, 3), (5, 7), (9, 8), (10, 11)]), (6, 5, [(4, 0), (5, 1), (6, 2), (7, 3)])]

/-- in-plane position of a corner for a face with the given normal axis -/
def inPlane (f c : Nat) : Nat × Nat :=
  let p : Nat × Nat × Nat := match c with
    | 0 => (0,0,0) | 1 => (1,0,0) | 2 => (1,1,0) | 3 => (0,1,0) | 4 => (0,0,1) | 5 => (1,0,1) | 6 => (1,1,1) | _ => (0,1,1)
  if f == 1 || f == 3 then (p.1, p.2.2) else if f == 2 || f == 4 then (p.2.1, p.2.2) else (p.1, p.2.1)

/-- the neighbour's key for the same physical face data -/
def neighbourKey (f g key : Nat) : Nat :=
  let q := key % 4
  let sb := (key / 4) % 16
  let s : List Bool := [sb / 8 % 2 == 1, sb / 4 % 2 == 1, sb / 2 % 2 == 1, sb % 2 == 1]
  let here := (faceCorners f).map (inPlane f)
  let s' := (faceCorners g).map fun c => ((here.zip s).find? (·.1 == inPlane g c)).map (·.2) |>.getD false
  (g * 16 + bits s') * 4 + q

def mapSegs (emap : List (Nat × Nat)) (code : List Nat) : List Nat :=
  let m (e : Nat) : Nat := ((emap.find? (·.1 == e)).map (·.2)).getD 99
  (code.map fun c => m (c % 16) * 16 + m (c / 16)).foldr insertNat []     -- renamed AND reversed

def gluesOk (table : List (Nat × List Nat)) : Bool :=
  opposite.all fun (f, g, emap) =>
    table.all fun (k, s) =>
      k / 64 != f ||
        match table.find? (·.1 == neighbourKey f g k) with
        | some (_, s') => mapSegs emap s == s'
        | none => false

/-- the recorded traces of one configuration form a complete binary decision tree -/
def isTree : Nat → List (List (Bool × Int × Bool)) → Bool
  | 0, _ => false
  | fuel + 1, ts =>
    match ts with
    | [] => false
    | [t] => t.isEmpty
    | t :: _ =>
      match t with
      | [] => false
      | h :: _ =>
        ts.all (fun u => match u with | [] => false | h' :: _ => h'.1 == h.1 && h'.2.1 == h.2.1) &&
          isTree fuel ((ts.filter fun u => (u.head?.map (·.2.2)).getD false).map List.tail) &&
          isTree fuel ((ts.filter fun u => !(u.head?.map (·.2.2)).getD true).map List.tail)

def leavesOf (cfg : Nat) : List Leaf := leaves.filter (·.cfg == cfg)

/-! ### numeric part (generic number type) -/
section
variable {K : Type} [Add K] [Sub K] [Mul K] [Div K] [Neg K] [LT K] [DecidableLT K] [LE K] [DecidableLE K] [OfNat K 0] [OfNat K 1] [OfNat K 2]

def absK (x : K) : K := if x < 0 then -x else x

/-- `cell.index` of `set_cube`: bit c set iff `v_c − isovalue > 0` -/
def cellIndex (v : List K) : Nat :=
  (List.range 8).foldl (fun n c => if (0 : K) < v.getD c 0 then n + 2 ^ c else n) 0

/-- `test_face` -/
def testFace (eps : K) (v : List K) (face : Int) : Bool :=
  let cs := faceCorners face.natAbs
  let a := v.getD (cs.getD 0 0) 0; let b := v.getD (cs.getD 1 0) 0; let c := v.getD (cs.getD 2 0) 0; let d := v.getD (cs.getD 3 0) 0
  let acbd := a * c - b * d
  if -eps < acbd ∧ acbd < eps then decide (face ≥ 0)
  else
    let x := a * acbd
    if face ≥ 0 then decide ((0 : K) ≤ x) else decide (x ≤ 0)      -- `face * A * AC_BD >= 0`

/-- corner rows (Bt, Ct, Dt sources) of `test_internal` for the reference edge: `(t-numerator corner, t-denominator partner,
[(from, to)] for B, C, D)` -/
def internalRows : Nat → Option (Nat × Nat × List (Nat × Nat))
  | 0 => some (0, 1, [(3, 2), (7, 6), (4, 5)])
  | 1 => some (1, 2, [(0, 3), (4, 7), (5, 6)])
  | 2 => some (2, 3, [(1, 0), (5, 4), (6, 7)])
  | 3 => some (3, 0, [(2, 1), (6, 5), (7, 4)])
  | 4 => some (4, 5, [(7, 6), (3, 2), (0, 1)])
  | 5 => some (5, 6, [(4, 7), (0, 3), (1, 2)])
  | 6 => some (6, 7, [(5, 4), (1, 0), (2, 3)])
  | 7 => some (7, 4, [(6, 5), (2, 1), (3, 0)])
  | 8 => some (0, 4, [(3, 7), (2, 6), (1, 5)])
  | 9 => some (1, 5, [(0, 4), (3, 7), (2, 6)])
  | 10 => some (2, 6, [(1, 5), (0, 4), (3, 7)])
  | 11 => some (3, 7, [(2, 6), (1, 5), (0, 4)])
  | _ => none

/-- `test_internal` -/
def testInternal (eps : K) (v : List K) (case : Nat) (refEdge : Int) (s : Int) : Bool :=
  let g (i : Nat) : K := v.getD i 0
  let lerp (a b : Nat) (t : K) : K := g a + (g b - g a) * t
  let abcd : Option (K × K × K × K) :=
    if case == 4 || case == 10 then
      let a := (g 4 - g 0) * (g 6 - g 2) - (g 7 - g 3) * (g 5 - g 1)
      let b := g 2 * (g 4 - g 0) + g 0 * (g 6 - g 2) - g 1 * (g 7 - g 3) - g 3 * (g 5 - g 1)
      let t := -b / (2 * a + eps)
      if t < 0 ∨ 1 < t then none
      else some (lerp 0 4 t, lerp 3 7 t, lerp 2 6 t, lerp 1 5 t)
    else
      match internalRows refEdge.toNat with
      | some (n, p, [rb, rc, rd]) =>
        let t := g n / (g n - g p + eps)
        some (0, lerp rb.1 rb.2 t, lerp rc.1 rc.2 t, lerp rd.1 rd.2 t)
      | _ => some (0, 0, 0, 0)
  match abcd with
  | none => decide (s > 0)
  | some (at', bt, ct, dt) =>
    let test : Nat := (if (0 : K) ≤ at' then 1 else 0) + (if (0 : K) ≤ bt then 2 else 0) + (if (0 : K) ≤ ct then 4 else 0) + (if (0 : K) ≤ dt then 8 else 0)
    -- in these two branches the Cython port falls off the end of the function when the inner test fails and returns 0
    -- (Lewiner's C++ returns `s < 0` there); the model mirrors the port — both tilings have the same boundary
    if test == 5 then (if at' * ct - bt * dt < eps then decide (s > 0) else false)
    else if test == 10 then (if ¬ (at' * ct - bt * dt < eps) then decide (s > 0) else false)
    else if test == 7 || test == 11 || test == 13 || test == 14 || test == 15 then decide (s < 0)
    else decide (s > 0)

/-- relative position along a cube edge of the vertex placed by `_add_face_from_edge_index`
(0 = first corner of the edge, 1 = second): weights `1/(eps + |v|)` -/
def vertexParam (eps v1 v2 : K) : K :=
  let w1 := 1 / (eps + absK v1)
  let w2 := 1 / (eps + absK v2)
  w2 / (w1 + w2)

/-- the leaf the code reaches for corner values `v` (already minus the isovalue) -/
def selectLeaf (eps : K) (v : List K) : Option Leaf :=
  let cfg := cellIndex v
  (leavesOf cfg).find? fun lf =>
    lf.tests.all fun t => (if t.1 then testFace eps v t.2.1 else testInternal eps v lf.case lf.refEdge t.2.1) == t.2.2
end

/-! ### vertex sharing -/

/-- `get_index_in_facelayer` (step 1): which of the two layers (false = faceLayer1 = the cell's own z, true = faceLayer2 = z+1)
and which slot -/
def slot (nx x y : Nat) (vi : Nat) : Bool × Nat :=
  let i := nx * y + x
  if vi < 8 then
    let upper := decide (4 ≤ vi)
    let w := if vi < 4 then vi else vi - 4
    let (i, j) := if w == 1 then (i + 1, 1) else if w == 2 then (i + nx, 0) else if w == 3 then (i, 1) else (i, 0)
    (upper, 4 * i + j)
  else if vi < 12 then
    let i := if vi == 9 then i + 1 else if vi == 10 then i + nx + 1 else if vi == 11 then i + nx else i
    (false, 4 * i + 2)
  else (false, 4 * i + 3)

/-- the physical grid edge a cube edge of cell (x, y, z) is: (x', y', z', axis) with axis 0/1/2, 3 = cell centre -/
def gridEdge (x y z vi : Nat) : Nat × Nat × Nat × Nat :=
  match vi with
  | 0 => (x, y, z, 0) | 1 => (x + 1, y, z, 1) | 2 => (x, y + 1, z, 0) | 3 => (x, y, z, 1)
  | 4 => (x, y, z + 1, 0) | 5 => (x + 1, y, z + 1, 1) | 6 => (x, y + 1, z + 1, 0) | 7 => (x, y, z + 1, 1)
  | 8 => (x, y, z, 2) | 9 => (x + 1, y, z, 2) | 10 => (x + 1, y + 1, z, 2) | 11 => (x, y + 1, z, 2)
  | _ => (x, y, z, 3)

end ChmpyVerif.MC
