/-
Hand-written executable model of the space-group layer: operations on the packed codes
(`crystal/symmetry_operation.py`: composition, inversion, lattice translations,
`reduced_symmetry_list`, `expanded_symmetry_list`) and of `crystal/space_group.py`
(`SpaceGroup.__init__` selection with the default-choice map, `latt`, sorted-code lookup
`from_symmetry_operations`).  The table itself is GENERATED (`Gen/SGData*.lean`).

Operations are kept in "twelfths": rotation entries `Int`, translation digits `Int` in 0..11.
Mathlib-free, kernel-friendly (structural recursion only).
-/
namespace ChmpyVerif.SG

/-- an affine operation: row-major 3×3 rotation, translation in twelfths -/
structure AOp where
  r : List Int
  t : List Int
deriving DecidableEq, Repr

def decodeOp (code : Nat) : AOp :=
  let r := code % 19683
  let t := code / 19683
  let rd (s : Nat) : Int := ((r / s % 3 : Nat) : Int) - 1
  let td (s : Nat) : Int := ((t / s % 12 : Nat) : Int)
  ⟨[rd 6561, rd 2187, rd 729, rd 243, rd 81, rd 27, rd 9, rd 3, rd 1], [td 144, td 12, td 1]⟩

def encodeOp (a : AOp) : Nat :=
  let r := a.r.foldl (fun acc d => acc * 3 + (d + 1).toNat) 0
  let t := a.t.foldl (fun acc d => acc * 12 + (d % 12).toNat) 0
  r + t * 19683

def idOp : AOp := ⟨[1, 0, 0, 0, 1, 0, 0, 0, 1], [0, 0, 0]⟩
def idCode : Nat := 16484
/-- `-x,-y,-z` -/
def invCode : Nat := 3198

/-- `a ∘ b` (apply `b` first): rotation `Ra·Rb`, translation `Ra·tb + ta` modulo the lattice -/
def compose (a b : AOp) : AOp :=
  match a.r, a.t, b.r, b.t with
  | [a0, a1, a2, a3, a4, a5, a6, a7, a8], [s0, s1, s2], [b0, b1, b2, b3, b4, b5, b6, b7, b8], [u0, u1, u2] =>
    ⟨[a0 * b0 + a1 * b3 + a2 * b6, a0 * b1 + a1 * b4 + a2 * b7, a0 * b2 + a1 * b5 + a2 * b8,
      a3 * b0 + a4 * b3 + a5 * b6, a3 * b1 + a4 * b4 + a5 * b7, a3 * b2 + a4 * b5 + a5 * b8,
      a6 * b0 + a7 * b3 + a8 * b6, a6 * b1 + a7 * b4 + a8 * b7, a6 * b2 + a7 * b5 + a8 * b8],
     [(a0 * u0 + a1 * u1 + a2 * u2 + s0) % 12, (a3 * u0 + a4 * u1 + a5 * u2 + s1) % 12,
      (a6 * u0 + a7 * u1 + a8 * u2 + s2) % 12]⟩
  | _, _, _, _ => ⟨[], []⟩

/-- well-formed: 9 rotation entries, 3 translation digits in 0..11 -/
def wf (a : AOp) : Bool :=
  a.r.length == 9 && a.t.length == 3 && a.t.all (fun x => decide (0 ≤ x) && decide (x < 12))

/-- entries in {-1,0,1}: the packed form is faithful -/
def packable (a : AOp) : Bool := wf a && a.r.all (fun x => decide (-1 ≤ x) && decide (x ≤ 1))

/-! ### `SymmetryOperation.__add__`, `inverted` on codes -/

/-- `symop + t` with `t` in twelfths (constructor reduces modulo 1) -/
def addT (code : Nat) (v : List Int) : Nat :=
  let a := decodeOp code
  encodeOp ⟨a.r, (a.t.zipWith (fun x y => (x + y) % 12) v)⟩

/-- `symop.inverted()` = `(-R, -t mod 1)` (NOT the group inverse: the product with `-x,-y,-z`) -/
def inverted (code : Nat) : Nat :=
  let a := decodeOp code
  encodeOp ⟨a.r.map (fun x => -x), a.t.map (fun x => (-x) % 12)⟩

/-- `LATTICE_TYPE_TRANSLATIONS[abs(latt)]` is a parameter (generated) -/
abbrev LattTable := List (Nat × List (List Int))

def translationsOf (tbl : LattTable) (latt : Int) : List (List Int) :=
  match tbl.find? (fun p => p.1 == latt.natAbs) with
  | some p => p.2
  | none => []

/-- `expanded_symmetry_list` on codes -/
def expandedList (lt : LattTable) (reduced : List Nat) (latt : Int) : List Nat :=
  let tr := translationsOf lt latt
  let red := if reduced.contains idCode then reduced else reduced ++ [idCode]
  let full := red.flatMap fun c => c :: tr.map (addT c)
  if latt > 0 then full ++ full.map inverted else full

/-- one step of the `while symops_to_process` loop of `reduced_symmetry_list` -/
def reduceStep (tr : List (List Int)) (inversion : Bool) (acc : List Nat) (c : Nat) : List Nat :=
  if acc.contains c then acc
  else if inversion && acc.contains (inverted c) then acc
  else if tr.any (fun t => let x := addT c t; (inversion && acc.contains (inverted x)) || acc.contains x) then acc
  else acc ++ [c]

/-- `reduced_symmetry_list` on codes -/
def reducedList (lt : LattTable) (full : List Nat) (latt : Int) : List Nat :=
  full.foldl (reduceStep (translationsOf lt latt) (decide (latt > 0))) [idCode]

/-! ### the table -/

structure Entry where
  number : Nat
  choice : List Nat          -- code points of the choice string
  centering : Nat            -- SHELX lattice number of the centering string (`centering_to_latt`)
  centro : Bool
  symops : List Nat
deriving DecidableEq, Repr

/-- `SpaceGroup.latt` (after the repair): positive iff `-x,-y,-z` itself is an operation -/
def Entry.latt (e : Entry) : Int :=
  if e.symops.contains invCode then (e.centering : Int) else -(e.centering : Int)

/-- insertion into a sorted list (structural, kernel-friendly) -/
def insertSorted (x : Nat) : List Nat → List Nat
  | [] => [x]
  | y :: ys => if x ≤ y then x :: y :: ys else y :: insertSorted x ys

/-- `sorted(...)` on codes -/
def sortCodes (l : List Nat) : List Nat := l.foldr insertSorted []

/-- `SG_FROM_SYMOPS[key]`: dict comprehension over the table in order, so the LAST entry with that
tuple wins -/
def lookupSymops (tbl : List Entry) (key : List Nat) : Option Entry :=
  tbl.reverse.find? fun e => e.symops == key

/-- `SpaceGroup.from_symmetry_operations(symops, expand_latt)`; `none` = ValueError -/
def fromSymops (lt : LattTable) (tbl : List Entry) (codes : List Nat) (expandLatt : Option Int) : Option Entry :=
  match expandLatt with
  | some l => if -8 < l ∧ l < 8 then lookupSymops tbl (sortCodes (expandedList lt codes l)) else none
  | none => lookupSymops tbl (sortCodes codes)

/-- `SpaceGroup(number, choice)`: default-choice map, first entry when no choice; `none` = ValueError -/
def construct (tbl : List Entry) (defaults : List (Nat × List Nat)) (number : Int) (choice : List Nat) : Option Entry :=
  if number < 1 ∨ number > 230 then none
  else
    let n := number.toNat
    let choice := if choice.isEmpty then
        match defaults.find? (fun p => p.1 == n) with
        | some p => p.2
        | none => []
      else choice
    let cands := tbl.filter fun e => e.number == n
    if choice.isEmpty then cands.head? else cands.find? fun e => e.choice == choice

/-! ### per-entry facts checked by the kernel (certificates are produced by the untrusted translator) -/

def isSortedStrict : List Nat → Bool
  | [] => true
  | [_] => true
  | x :: y :: rest => decide (x < y) && isSortedStrict (y :: rest)

/-- spanning-tree certificate: `order` lists `(table index, parent position, generator index)`; the first
element is the identity; every later element is `parent ∘ generator` where the parent was placed EARLIER.
`placed` is the list of elements placed so far. -/
def treeGo (ops gens : List AOp) : List (Nat × Nat × Nat) → List AOp → Bool
  | [], _ => true
  | (idx, par, gi) :: rest, placed =>
    match ops[idx]?, placed[par]?, gens[gi]? with
    | some x, some p, some s => compose p s == x && treeGo ops gens rest (placed ++ [x])
    | _, _, _ => false

def treeOk (ops gens : List AOp) (order : List (Nat × Nat × Nat)) : Bool :=
  match order with
  | (idx, _, _) :: rest => ops[idx]? == some idOp && treeGo ops gens rest [idOp]
  | [] => false

/-- the tree reaches every table index -/
def coversAll (n : Nat) (order : List (Nat × Nat × Nat)) : Bool :=
  (List.range n).all fun i => (order.map (·.1)).contains i

/-- `codes.contains n`, written so that the kernel evaluates `n` ONCE (the match forces it to a numeral)
before it is compared with every element — the kernel evaluates call-by-name otherwise -/
def containsStrict (codes : List Nat) (n : Nat) : Bool :=
  match n with
  | 0 => codes.contains 0
  | m + 1 => codes.contains (m + 1)

/-- right translates by every generator stay inside.  Membership is tested on the packed code (fast
natural-number comparisons); `packable` makes the packed code faithful (lemma `decode_encode_of_packable`). -/
def rightClosed (codes : List Nat) (ops : List AOp) (gens : List AOp) : Bool :=
  ops.all fun g => gens.all fun s =>
    let x := compose g s
    packable x && containsStrict codes (encodeOp x)

/-- each element has its two-sided inverse at the certified index -/
def inversesOk (ops : List AOp) (inv : List Nat) : Bool :=
  inv.length == ops.length &&
  (ops.zip inv).all fun (g, j) =>
    match ops[j]? with
    | some h => compose g h == idOp && compose h g == idOp
    | none => false

structure Cert where
  gens : List Nat                    -- generator codes
  order : List (Nat × Nat × Nat)
  inv : List Nat

def hasMinusIdentity (codes : List Nat) : Bool := codes.any fun c => c % 19683 == invCode

/-- everything the kernel checks for one setting -/
def entryOk (lt : LattTable) (e : Entry) (c : Cert) : Bool :=
  let ops := e.symops.map decodeOp
  let gens := c.gens.map decodeOp
  isSortedStrict e.symops &&
  e.symops.contains idCode &&
  e.symops.all (fun code => decide (code < 34012224)) &&
  ops.all packable && gens.all wf &&
  c.gens.all (fun s => e.symops.contains s) &&
  treeOk ops gens c.order && coversAll ops.length c.order && rightClosed e.symops ops gens &&
  inversesOk ops c.inv &&
  (e.centro == hasMinusIdentity e.symops) &&
  (sortCodes (expandedList lt (reducedList lt e.symops e.latt) e.latt) == e.symops) &&
  (1 ≤ e.centering && e.centering ≤ 7)

end ChmpyVerif.SG
