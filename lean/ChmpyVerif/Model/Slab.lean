/-
Hand-written executable model of `Crystal.slab` (cell enumeration and row layout) and of the cell
search box / ball filter of the periodic neighbourhood queries in crystal/crystal.py.
The integer part (which cells, in which order, which row is which atom) is exact and is what the
combinatorial theorems are about; the floating-point part (box from the radius, distance filter) is
executed in `Float` by the driver and mirrored over ℝ in `Props/C03.lean`.
Mathlib-free.
-/
namespace ChmpyVerif.Slab

/-- `np.arange(lo, hi + 1)` -/
def arange (lo hi : Int) : List Int := (List.range (hi + 1 - lo).toNat).map fun (i : Nat) => lo + (i : Int)

/-- stable insertion by |h| (what `h[np.argsort(np.abs(h))]` does up to the order of equal keys, which numpy's
default quicksort leaves unspecified; only membership matters for the queries) -/
def insertAbs (x : Int) : List Int → List Int
  | [] => [x]
  | y :: ys => if x.natAbs < y.natAbs then x :: y :: ys else y :: insertAbs x ys

def sortAbs (l : List Int) : List Int := l.foldr insertAbs []

/-- `cartesian_product(h, k, l)`: the last array varies fastest -/
def product3 (hs ks ls : List Int) : List (Int × Int × Int) :=
  hs.flatMap fun h => ks.flatMap fun k => ls.map fun l => (h, k, l)

/-- the cells of `slab(bounds=((hmin,kmin,lmin),(hmax,kmax,lmax)))` in the order they are laid out -/
def cells (lo hi : Int × Int × Int) : List (Int × Int × Int) :=
  product3 (sortAbs (arange lo.1 hi.1)) (sortAbs (arange lo.2.1 hi.2.1)) (sortAbs (arange lo.2.2 hi.2.2))

/-- rows of the slab: cell-major, unit-cell atom minor; row `i` is atom `i % n_uc` in cell `i / n_uc`
(`uc_atom = np.tile(np.arange(n_uc), n_cells)`) -/
def slabRows (nuc : Nat) (cs : List (Int × Int × Int)) : List (Nat × (Int × Int × Int)) :=
  cs.flatMap fun c => (List.range nuc).map fun a => (a, c)

/-! ### floating-point part (driver) -/

def ceilI (x : Float) : Int := x.ceil.toInt64.toInt
def floorI (x : Float) : Int := x.floor.toInt64.toInt

/-- `hklmax = max_c ceil(frac_radius + c)`, `hklmin = min_c floor(c - frac_radius)` over the centres -/
def hklBounds (fr : Float × Float × Float) (centres : List (Float × Float × Float)) :
    (Int × Int × Int) × (Int × Int × Int) :=
  match centres with
  | [] => ((0, 0, 0), (0, 0, 0))
  | c0 :: rest =>
    let one (c : Float × Float × Float) :=
      ((floorI (c.1 - fr.1), floorI (c.2.1 - fr.2.1), floorI (c.2.2 - fr.2.2)),
       (ceilI (fr.1 + c.1), ceilI (fr.2.1 + c.2.1), ceilI (fr.2.2 + c.2.2)))
    rest.foldl (fun acc c =>
      let b := one c
      ((min acc.1.1 b.1.1, min acc.1.2.1 b.1.2.1, min acc.1.2.2 b.1.2.2),
       (max acc.2.1 b.2.1, max acc.2.2.1 b.2.2.1, max acc.2.2.2 b.2.2.2))) (one c0)

def toCartF (d : List (List Float)) (f : Float × Float × Float) : Float × Float × Float :=
  match d with
  | [[a0, a1, a2], [b0, b1, b2], [c0, c1, c2]] =>
    (f.1 * a0 + f.2.1 * b0 + f.2.2 * c0, f.1 * a1 + f.2.1 * b1 + f.2.2 * c1, f.1 * a2 + f.2.1 * b2 + f.2.2 * c2)
  | _ => (0, 0, 0)

def dist2 (p q : Float × Float × Float) : Float :=
  (p.1 - q.1) * (p.1 - q.1) + (p.2.1 - q.2.1) * (p.2.1 - q.2.1) + (p.2.2 - q.2.2) * (p.2.2 - q.2.2)

/-- rows of the slab within `r` of the Cartesian point `o` (`KDTree.query_ball_point`) -/
def inRadius (d : List (List Float)) (uc : List (Float × Float × Float)) (lo hi : Int × Int × Int)
    (o : Float × Float × Float) (r : Float) : List (Nat × (Int × Int × Int)) :=
  (slabRows uc.length (cells lo hi)).filter fun (a, c) =>
    match uc[a]? with
    | some f =>
      let p := toCartF d (f.1 + Float.ofInt c.1, f.2.1 + Float.ofInt c.2.1, f.2.2 + Float.ofInt c.2.2)
      dist2 p o ≤ r * r
    | none => false

end ChmpyVerif.Slab
