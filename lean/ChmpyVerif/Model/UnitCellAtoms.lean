/-
Hand-written executable model of `Crystal.unit_cell_atoms` and `SpaceGroup.apply_all_symops`
(crystal/crystal.py, crystal/space_group.py) in exact rational arithmetic.

Merging: the implementation merges images closer than 1e-2 (Euclidean, in wrapped fractional
coordinates) using the pair list of a KD-tree; the model merges images whose wrapped positions are
EQUAL.  The two agree when distinct images are well separated, which is the property's proviso
("sites kept away from the documented merge tolerance") and what the generator guarantees.
Assumed about scipy: `sparse_distance_matrix(...).items()` yields the pairs in lexicographic order
(the model's left-to-right pass); exercised on sites of site-symmetry order ≥ 3 by the harness.
Mathlib-free.
-/
import ChmpyVerif.Model.SGroup
namespace ChmpyVerif.UCA
open ChmpyVerif.SG

/-- `np.fmod(x + 7.0, 1)` for `x > -7` (precondition of the model; coordinates are a few cells at most) -/
def wrap (x : Rat) : Rat := x - (x.floor : Rat)

/-- an asymmetric-unit site -/
structure Site where
  elem : Nat
  label : Nat           -- labels are opaque: an index into the label array
  occ : Rat
  pos : List Rat
deriving DecidableEq, Repr

/-- one row of the unit-cell atom table -/
structure UAtom where
  asym : Nat
  elem : Nat
  label : Nat
  symop : Nat
  occ : Rat
  frac : List Rat
deriving DecidableEq, Repr

def dotR (r : List Int) (x : List Rat) : Rat :=
  (r.zipWith (fun (a : Int) (b : Rat) => (a : Rat) * b) x).foldl (· + ·) 0

def rows (r : List Int) : List (List Int) :=
  match r with
  | [a, b, c, d, e, f, g, h, i] => [[a, b, c], [d, e, f], [g, h, i]]
  | _ => []

/-- `symop.apply(x)` = `x·Rᵀ + t` with the translation in twelfths -/
def applyOp (a : AOp) (x : List Rat) : List Rat :=
  (rows a.r).zipWith (fun row (t : Int) => dotR row x + (t : Rat) / 12) a.t

/-- `apply_all_symops`: the identity first, then the others in table order with (the first occurrence of)
the identity removed -/
def orderedOps (codes : List Nat) : List Nat :=
  if codes.contains idCode then idCode :: codes.erase idCode else codes

/-- all images, operation-major (`np.tile` of the per-site arrays), wrapped into the cell -/
def images (codes : List Nat) (sites : List Site) : List UAtom :=
  (orderedOps codes).flatMap fun c =>
    (sites.zipIdx).map fun (s, i) => ⟨i, s.elem, s.label, c, s.occ, (applyOp (decodeOp c) s.pos).map wrap⟩

/-- sum of a list of rationals -/
def sumR : List Rat → Rat
  | [] => 0
  | x :: xs => x + sumR xs

/-- left-to-right merge of coincident images: the first of each group of equal positions is kept and
receives the occupancies of the later ones -/
def mergeAux : Nat → List UAtom → List UAtom
  | 0, _ => []
  | _ + 1, [] => []
  | n + 1, a :: rest =>
    { a with occ := a.occ + sumR ((rest.filter fun b => b.frac == a.frac).map (·.occ)) } ::
      mergeAux n (rest.filter fun b => !(b.frac == a.frac))

/-- fuel = length is always enough (each step removes at least the head) -/
def merge (l : List UAtom) : List UAtom := mergeAux l.length l

/-- `Crystal.unit_cell_atoms()` (without the Cartesian column, which is `frac · direct`) -/
def unitCellAtoms (codes : List Nat) (sites : List Site) : List UAtom := merge (images codes sites)

/-- `cart_pos = to_cartesian(frac_pos)` for a lattice given by its rows -/
def toCart (direct : List (List Rat)) (x : List Rat) : List Rat :=
  match direct, x with
  | [r0, r1, r2], [a, b, c] => (List.range 3).map fun j => a * r0.getD j 0 + b * r1.getD j 0 + c * r2.getD j 0
  | _, _ => []

end ChmpyVerif.UCA
