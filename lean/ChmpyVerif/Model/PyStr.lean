/-
Python `str` primitives shared by the string-level models (ASCII semantics; characters are
code points so that case maps are arithmetic).  Mathlib-free.
-/
namespace ChmpyVerif.PyStr

/-- a character = its code point -/
abbrev Ch := Nat

def pyIsSpace (c : Ch) : Bool := c = 32 || (9 ≤ c && c ≤ 13) || (28 ≤ c && c ≤ 31)

def isUpperA (c : Ch) : Bool := 65 ≤ c && c ≤ 90
def isLowerA (c : Ch) : Bool := 97 ≤ c && c ≤ 122
def isLetterA (c : Ch) : Bool := isUpperA c || isLowerA c
def isDigitA (c : Ch) : Bool := 48 ≤ c && c ≤ 57

def toLowerA (c : Ch) : Ch := if isUpperA c then c + 32 else c
def toUpperA (c : Ch) : Ch := if isLowerA c then c - 32 else c

def lower (s : List Ch) : List Ch := s.map toLowerA

def strip (s : List Ch) : List Ch :=
  ((s.dropWhile pyIsSpace).reverse.dropWhile pyIsSpace).reverse

def capitalize : List Ch → List Ch
  | [] => []
  | c :: cs => toUpperA c :: lower cs

def isDigitStr (s : List Ch) : Bool := !s.isEmpty && s.all isDigitA

def digitsToNat (s : List Ch) : Nat := s.foldl (fun acc c => 10 * acc + (c - 48)) 0


/-- `str.replace(c, "")` for a single character -/
def removeAll (c : Ch) (s : List Ch) : List Ch := s.filter (· != c)

/-- `str.split(sep)` for a single-character separator (always at least one piece) -/
def splitOn (sep : Ch) : List Ch → List (List Ch)
  | [] => [[]]
  | c :: cs =>
    match splitOn sep cs with
    | [] => [[c]]            -- unreachable: the result is never empty
    | p :: ps => if c = sep then [] :: p :: ps else (c :: p) :: ps

/-- `sep.join(parts)` -/
def joinWith (sep : Ch) : List (List Ch) → List Ch
  | [] => []
  | [p] => p
  | p :: ps => p ++ sep :: joinWith sep ps

/-- decimal rendering of a natural number as code points -/
def natStr (n : Nat) : List Ch := (Nat.toDigits 10 n).map Char.toNat

/-- the string literal as code points (driver/tests only) -/
def ofString (s : String) : List Ch := s.toList.map Char.toNat
def render (s : List Ch) : String := String.ofList (s.map Char.ofNat)

end ChmpyVerif.PyStr
