/-
Hand-written executable model of the bookkeeping in `Crystal.unit_cell_molecules` and
`Crystal.symmetry_unique_molecules` (crystal/crystal.py), on exact integers:
grouping atoms by component label, unwrapping molecules over cell boundaries by a breadth-first walk
of the periodic bond graph (`shift[j] = shift[i] ± cell(i,j)`), recentring, greedy choice of the
symmetry-unique molecules and labelling of every unit-cell molecule.
The component labels and the bond list are inputs (scipy `connected_components`, KD-tree bond search).
Mathlib-free.
-/
namespace ChmpyVerif.Mol

abbrev Cell := Int × Int × Int

/-- an undirected periodic bond `i < j` with the cell offset of `j` relative to `i` -/
structure Edge where
  i : Nat
  j : Nat
  cell : Cell
deriving DecidableEq, Repr

def addC (a b : Cell) : Cell := (a.1 + b.1, a.2.1 + b.2.1, a.2.2 + b.2.2)
def subC (a b : Cell) : Cell := (a.1 - b.1, a.2.1 - b.2.1, a.2.2 - b.2.2)

/-- `properties[(i, j)] = cell`: a dict, the LAST edge listed for a pair wins -/
def cellOf (edges : List Edge) (i j : Nat) : Option Cell :=
  (edges.reverse.find? fun e => e.i == i && e.j == j).map (·.cell)

/-- neighbours of `v` in ascending index order (CSR column order of the symmetrised graph) -/
def neighbours (n : Nat) (edges : List Edge) (v : Nat) : List Nat :=
  (List.range n).filter fun w => edges.any fun e => (e.i == v && e.j == w) || (e.i == w && e.j == v)

/-- `nodes = np.where(uc_mols == k)[0]` -/
def nodesOf (labels : List Nat) (k : Nat) : List Nat :=
  (List.range labels.length).filter fun a => labels.getD a 0 == k

/-- the molecules as lists of unit-cell atom indices -/
def molecules (labels : List Nat) (nmol : Nat) : List (List Nat) := (List.range nmol).map (nodesOf labels)

/-- breadth-first walk from `root` assigning lattice shifts; returns `(node, shift)` in visiting order -/
def bfsShifts (n : Nat) (edges : List Edge) (root : Nat) : List (Nat × Cell) :=
  go n [(root, (0, 0, 0))] [(root, (0, 0, 0))]
where
  go : Nat → List (Nat × Cell) → List (Nat × Cell) → List (Nat × Cell)
  | 0, _, seen => seen
  | _ + 1, [], seen => seen
  | fuel + 1, (v, sv) :: queue, seen =>
    let fresh := (neighbours n edges v).filter fun w => !(seen.any (·.1 == w))
    let placed := fresh.map fun w =>
      -- `if j < i: shift[j] = shift[i] - cell(j,i) else shift[j] = shift[i] + cell(i,j)` with i = pred = v, j = w
      let s := if w < v then subC sv ((cellOf edges w v).getD (0, 0, 0)) else addC sv ((cellOf edges v w).getD (0, 0, 0))
      (w, s)
    go fuel (queue ++ placed) (seen ++ placed)

def shiftOf (sh : List (Nat × Cell)) (v : Nat) : Cell := ((sh.find? (·.1 == v)).map (·.2)).getD (0, 0, 0)

/-- every bond inside the molecule (not only the tree edges of the walk) is consistent with the shifts:
false for polymers / rings with a net lattice offset -/
def shiftConsistent (edges : List Edge) (sh : List (Nat × Cell)) : Bool :=
  edges.all fun e =>
    !(sh.any (·.1 == e.i) && sh.any (·.1 == e.j)) ||
      (cellOf edges e.i e.j != some e.cell) || subC (shiftOf sh e.j) (shiftOf sh e.i) == e.cell

/-! ### symmetry-unique molecules -/

/-- `np.unique(asym indices)`: sorted distinct -/
def insertU (x : Nat) : List Nat → List Nat
  | [] => [x]
  | y :: ys => if x < y then x :: y :: ys else if x = y then y :: ys else y :: insertU x ys
def uniq (l : List Nat) : List Nat := l.foldr insertU []

/-- greedy pass over the (already ordered) molecules: a molecule is taken unless all its asymmetric-unit atoms
are already covered; returns the indices (into the given order) of the molecules taken -/
def greedy (nasym : Nat) (asymSets : List (List Nat)) : List Nat :=
  (go asymSets 0 [] []).reverse
where
  go : List (List Nat) → Nat → List Nat → List Nat → List Nat
  | [], _, _, taken => taken
  | s :: rest, k, covered, taken =>
    if (List.range nasym).all (covered.contains ·) then taken      -- `if np.all(asym_atoms): break` (checked after a take)
    else if s.all (covered.contains ·) then go rest (k + 1) covered taken
    else go rest (k + 1) (covered ++ s) (k :: taken)

/-- `sorted(mols, key=identity fraction, reverse=True)`: stable, descending -/
def insertDesc (x : Rat × Nat) : List (Rat × Nat) → List (Rat × Nat)
  | [] => [x]
  | y :: ys => if y.1 < x.1 then x :: y :: ys else y :: insertDesc x ys
def sortDesc (l : List (Rat × Nat)) : List (Rat × Nat) := l.foldl (fun acc x => insertDesc x acc) []

/-- label of a unit-cell molecule: index of the first unique molecule with the SAME asymmetric-unit index array -/
def labelOf (uniqueArrays : List (List Nat)) (arr : List Nat) : Option Nat :=
  uniqueArrays.findIdx? (· == arr)

end ChmpyVerif.Mol
