-- root of the library: every property file (and through them models, lemmas, generated tables)
import ChmpyVerif.Model.Proto
import ChmpyVerif.Props.C01
import ChmpyVerif.Props.C02
import ChmpyVerif.Props.C03
import ChmpyVerif.Props.C04
import ChmpyVerif.Props.C05
import ChmpyVerif.Props.C10
import ChmpyVerif.Props.C11
import ChmpyVerif.Props.C12
import ChmpyVerif.Props.C13
import ChmpyVerif.Props.C14
import ChmpyVerif.Props.C15
import ChmpyVerif.Props.C16
import ChmpyVerif.Props.C17
import ChmpyVerif.Props.C18
import ChmpyVerif.Props.C20
